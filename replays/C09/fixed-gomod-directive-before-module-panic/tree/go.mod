go 1.23

replace (
modulex.example/y => ./local
)

module example.com/m

require github.com/stretchr/testify v1.10.0
