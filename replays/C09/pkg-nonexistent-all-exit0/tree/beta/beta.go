package beta

type lowerSvc interface {
	Get(key string) (int, error)
}

