package p1

type Alpha interface {
	Do0(x int, s string) (string, error)
}

