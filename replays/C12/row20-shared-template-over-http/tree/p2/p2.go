package p2

type Alpha interface {
	Do0(x int, s string) (string, error)
}

type Beta interface {
	Do1(x int, s string) (string, error)
}

