package svc

import (
	"example.com/m/helpers/alpha"
	alpha2 "example.com/m/helpers/other/alpha"
	"time"
)

type Local struct{ N int }

type LIface interface{ LM(int) string }

type LGen[X any] struct{ V X }

type LGI[X any, Y comparable] interface{ Fetch(Y) X }

type LAlias = Local

type LFn func(a int, b ...string) error

type LStr string

func (LStr) String() string { return "" }

type Svc interface {
	DoS(p0 time.Duration, p1 alpha.Cmp) (time.Duration, []alpha2.T)
}

type Other interface {
	DoO() bool
	GetO(p0 *alpha.MyInt, p1 *alpha.MyInt)
}
