package svc

import (
	"example.com/m/helpers/alpha"
)

type Local struct{ N int }

type LIface interface{ LM(int) string }

type LGen[X any] struct{ V X }

type LGI[X any, Y comparable] interface{ Fetch(Y) X }

type LAlias = Local

type LFn func(a int, b ...string) error

type LStr string

func (LStr) String() string { return "" }

type Svc interface {
	DoS(p0 alpha.Cmp, p1 alpha.MyInt) bool
}

type Other interface {
	DoO()
}
