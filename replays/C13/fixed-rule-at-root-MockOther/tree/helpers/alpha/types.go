package alpha

type T struct {
	A int
	B string
}

func (T) String() string { return "" }

type I interface{ M() int }

type Fn func(int) string

type G[X any] struct{ V X }

type GI[X any] interface {
	Get() X
	Put(X)
}

type A = T

type MyInt int

func (MyInt) String() string { return "" }

type Cmp string

type E int

type Num interface{ ~int | ~float64 }
