package svc

import (
	"example.com/m/helpers/alpha"
)

type Local struct{ N int }

type LIface interface{ LM(int) string }

type LGen[X any] struct{ V X }

type LGI[X any, Y comparable] interface{ Fetch(Y) X }

type LAlias = Local

type LFn func(a int, b ...string) error

type LStr string

func (LStr) String() string { return "" }

type Svc interface {
	DoS(p0 string, p1 alpha.I) []Local
	GetS(p0 func(Local) Local, p1 alpha.MyInt) ([]alpha.I, int)
}

type Other interface {
	DoO(p0 ...alpha.G[Local]) map[string]alpha.I
	GetO(p0 map[string]alpha.MyInt, p1 alpha.G[alpha.MyInt], p2 ...*alpha.MyInt) ([]alpha.MyInt, func(alpha.I) alpha.I)
	PutO(p0 Local)
}
