package svc

var _ ReI_Iface[int]
var _ ReI_Iface[string]
var _ ReI_Iface[[]string]
