package mocks

import (
	q_alpha "example.com/m/helpers/alpha"
	src "example.com/m/httpd"
)

var _ ReI_Handler[int, string, []string]
var _ ReI_Handler[string, []string, q_alpha.T]
var _ ReI_Handler[[]string, q_alpha.T, *src.Local]
